package props

import (
	"context"
	"fmt"
	"net"
	"sort"
	"strings"
	"sync"
	"sync/atomic"
	"time"

	kafka "github.com/segmentio/kafka-go"
	"github.com/segmentio/kafka-go/protocol"
	"github.com/segmentio/kafka-go/protocol/addoffsetstotxn"
	"github.com/segmentio/kafka-go/protocol/addpartitionstotxn"
	"github.com/segmentio/kafka-go/protocol/apiversions"
	"github.com/segmentio/kafka-go/protocol/createpartitions"
	"github.com/segmentio/kafka-go/protocol/createtopics"
	"github.com/segmentio/kafka-go/protocol/deletegroups"
	"github.com/segmentio/kafka-go/protocol/deletetopics"
	"github.com/segmentio/kafka-go/protocol/describegroups"
	"github.com/segmentio/kafka-go/protocol/endtxn"
	"github.com/segmentio/kafka-go/protocol/fetch"
	"github.com/segmentio/kafka-go/protocol/findcoordinator"
	"github.com/segmentio/kafka-go/protocol/heartbeat"
	"github.com/segmentio/kafka-go/protocol/initproducerid"
	"github.com/segmentio/kafka-go/protocol/joingroup"
	"github.com/segmentio/kafka-go/protocol/leavegroup"
	"github.com/segmentio/kafka-go/protocol/listgroups"
	"github.com/segmentio/kafka-go/protocol/listoffsets"
	"github.com/segmentio/kafka-go/protocol/offsetcommit"
	"github.com/segmentio/kafka-go/protocol/offsetdelete"
	"github.com/segmentio/kafka-go/protocol/offsetfetch"
	"github.com/segmentio/kafka-go/protocol/produce"
	"github.com/segmentio/kafka-go/protocol/syncgroup"
	"github.com/segmentio/kafka-go/protocol/txnoffsetcommit"

	"verifharness/core"
	"verifharness/fakecluster"
	"verifharness/fakenet"
	"verifharness/refcodec"
)

// C12 — Transport routes requests to the right broker at a mutually supported version.
//
// c12.go: scenario generator and workload; c12_oracle.go: the journal monitor.

func init() {
	core.Register(&core.Prop{
		ID:    "C12",
		Level: "exploration",
		Rule: "one scenario = a fake cluster of 1..5 brokers, each with its own advertised API version table (full, capped below the client's maximum, minimum raised, above the client's range, disjoint from it, API absent), 1..4 topics with spread leaders and replica lists that do not start with the leader, groups and transactional ids with separate (per key type) coordinators, one kafka.Transport (MetadataTTL 20..60 ms) used by 1..8 goroutines through Transport.RoundTrip (23 request types) and kafka.Client methods, while the history (leader moves, broker addition / removal / re-addressing, topic creation through Client.CreateTopics, coordinator and controller moves) is applied between and during the request phases. " +
			"Afterwards the broker-side journal is replayed: every request must have been received by the broker (identified by the address that was dialled) which one of the metadata responses admissible for it designates — admissible = the responses the pool had been served between one before the start of the call and the first byte of the request; leader for produce/fetch/list-offsets (each split sub-request), node named by a FindCoordinator answer of the right key and key type received during the call for group and transaction requests, controller for create/delete-topics and create-partitions; a successful ListGroups reaches every broker of an admissible response — and must be encoded at min(client max, broker max) whenever the client's range and the range advertised by that broker overlap; after two served metadata responses reflect a leader move no call started later reaches the old leader; Client.Metadata(filter) equals an admissible served response restricted to the filter in request order. " +
			"signature = (api, routing class, version-table class of the receiving broker, history kinds of the scenario); a scenario is non-trivial when it has at least two brokers or a capped version table",
		Assumptions: []string{
			"the pool's view at a logical time is bracketed from outside: not older than the response delivered before the last one delivered before the call started, not newer than the last one delivered before the request's first byte was written; verdicts that depend on the lower bracket (a receiver that was right under an older served view) are only drawn in scenarios without scheduling stalls or slow metadata round trips (the pool drops a metadata response that takes longer than MetadataTTL) and only reported when a second run of the same scenario draws the same verdict",
			"when the advertised and the client range do not overlap, or the metadata designates no broker (unknown topic/partition, leader or controller not in the broker list, metadata v0 without controller), any behaviour is accepted and counted",
			"DeleteGroups with several groups is accepted at the coordinator of any of its groups (the library does not split it)",
		},
		Shards:      16,
		CaseTimeout: 60 * time.Second,
		Run:         runC12,
	})
}

const c12Owner = "c12"

type c12TopicCfg struct {
	Name  string
	Parts int
}

type c12BrokerCfg struct {
	ID      int32
	Profile string
	Capped  []string `json:",omitempty"`
}

type c12Phase struct {
	Event  string
	During bool // the event is applied while the requests of the phase are running
	Ops    int  // requests per goroutine
	Wait   int  // metadata refreshes to wait for afterwards
}

type c12Cfg struct {
	Brokers    []c12BrokerCfg
	Topics     []c12TopicCfg
	Boot       []int32
	TTLms      int
	Goroutines int
	MetaTopics bool
	Phases     []c12Phase
}

// client-side ranges of every API the workload uses
func c12ClientRange(api int) (int, int) {
	return int(protocol.ApiKey(api).MinVersion()), int(protocol.ApiKey(api).MaxVersion())
}

var c12APIs = []int{0, 1, 2, 3, 8, 9, 10, 11, 12, 13, 14, 15, 16, 18, 19, 20, 22, 24, 25, 26, 28, 37, 42, 47}

func c12APIName(api int) string {
	if a := refcodec.APIs[api]; a != nil {
		return a.Name
	}
	return fmt.Sprintf("api%d", api)
}

// c12VersionClass classifies the advertised range of one API relative to the client's.
func c12VersionClass(api int, vr fakecluster.VR, adv bool) string {
	cmin, cmax := c12ClientRange(api)
	switch {
	case !adv:
		return "absent"
	case vr.Min > cmax:
		return "no-overlap-above"
	case vr.Max < cmin:
		return "no-overlap-below"
	case vr.Max < cmax:
		return "below"
	case vr.Max > cmax:
		return "above"
	case vr.Min > cmin:
		return "equal-min-raised"
	}
	return "equal"
}

func c12Overlap(class string) bool {
	return class != "absent" && class != "no-overlap-above" && class != "no-overlap-below"
}

// c12GenTable draws a version table. profile: full | mixed | old | new.
func c12GenTable(r *core.Rand, profile string) (map[int]fakecluster.VR, []string) {
	t := fakecluster.DefaultVersions()
	var capped []string
	for _, api := range c12APIs {
		cmin, cmax := c12ClientRange(api)
		vr := fakecluster.VR{Min: cmin, Max: cmax}
		if api == fakecluster.KListOffsets {
			vr.Min = 0
		}
		x := r.Intn(100)
		essential := api == fakecluster.KMetadata || api == fakecluster.KApiVersions || api == fakecluster.KFindCoordinator
		switch profile {
		case "full":
			x = 0
		case "old":
			if x >= 20 {
				x = 60 // capped
			}
		case "new":
			if x >= 20 {
				x = 75 // above
			}
		}
		switch {
		case x < 52:
		case x < 70 && cmax > cmin: // capped below the client's maximum
			vr.Max = r.Range(cmin, cmax-1)
		case x < 78 && cmax > cmin: // minimum raised, still overlapping
			vr.Max = r.Range(cmin+1, cmax+1)
			vr.Min = r.Range(cmin+1, vr.Max)
			if vr.Min > cmax {
				vr.Min = cmax
			}
		case x < 86: // maximum above the client's
			vr.Max = cmax + r.Range(1, 3)
		case x < 90: // a single version
			v := r.Range(cmin, cmax)
			vr = fakecluster.VR{Min: v, Max: v}
		case x < 94 && !essential: // disjoint, above
			vr = fakecluster.VR{Min: cmax + 1, Max: cmax + r.Range(1, 3)}
		case x < 97 && !essential: // not advertised at all
			delete(t, api)
			capped = append(capped, c12APIName(api)+":absent")
			continue
		case x < 100 && cmin > 0: // disjoint, below (ListOffsets only: the client starts at v1)
			vr = fakecluster.VR{Min: 0, Max: cmin - 1}
		}
		t[api] = vr
		if cl := c12VersionClass(api, vr, true); cl != "equal" {
			capped = append(capped, fmt.Sprintf("%s:%d-%d", c12APIName(api), vr.Min, vr.Max))
		}
	}
	return t, capped
}

type c12Call struct {
	APIs   []int
	Name   string
	Via    string
	Keys   []string
	T0, T1 int64
	Err    string
	// Metadata probe
	Filter  []string
	IsMeta  bool
	MetaRes *kafka.MetadataResponse
}

type c12Move struct {
	Tick    int64
	Topic   string
	Part    int32
	OldAddr string
	OldID   int32
	NewID   int32
}

type c12CoordChange struct {
	Tick int64
	ID   int32
}

type c12Env struct {
	k      *core.Case
	cfg    c12Cfg
	net    *fakenet.Net
	cl     *fakecluster.Cluster
	tr     *kafka.Transport
	client *kafka.Client
	boot   net.Addr

	// cmu guards coord, coordLog, ids and hostOf; it is a leaf lock (taken inside the cluster's lock by
	// CoordinatorOf), mu guards the rest and may be held while calling into the cluster.
	cmu       sync.Mutex
	mu        sync.Mutex
	tables    map[string]map[int]fakecluster.VR // address -> advertised table
	addrOf    map[int32]string                  // live brokers: id -> current address
	hostOf    map[int32]string
	portOf    map[int32]int32 // ports other than 9092 (re-addressed brokers)
	ids       []int32         // live broker ids
	bootIDs   map[int32]bool
	topics    []c12TopicCfg
	leaders   map[string]int32 // "t/p" -> leader (scenario's book-keeping)
	groups    []string
	txns      []string
	coord     map[string]int32            // "<type>:<key>" -> broker id
	coordLog  map[string][]c12CoordChange // history of the above
	calls     []*c12Call
	moves     []c12Move
	kinds     map[string]bool
	nextID    int32
	readdr    int
	created   int
	scratch   []string
	metaBuilt int64          // metadata answers built so far (workload pacing only)
	stalls    [][2]time.Time // observed scheduling stalls (> 5 ms oversleep of a 500 µs nap)
}

func (e *c12Env) record(c *c12Call) {
	e.mu.Lock()
	e.calls = append(e.calls, c)
	e.mu.Unlock()
}

func (e *c12Env) topo() []c12TopicCfg {
	e.mu.Lock()
	defer e.mu.Unlock()
	return append([]c12TopicCfg(nil), e.topics...)
}

func (e *c12Env) setCoordLocked(key string, id int32) {
	// e.cmu held
	e.coord[key] = id
	e.coordLog[key] = append(e.coordLog[key], c12CoordChange{Tick: core.Tick(), ID: id})
}

func (e *c12Env) setCoord(key string, id int32) {
	e.cmu.Lock()
	e.setCoordLocked(key, id)
	e.cmu.Unlock()
}

// coordKeys returns the keys that have a coordinator so far, sorted, with their coordinators.
func (e *c12Env) coordKeys() ([]string, map[string]int32) {
	e.cmu.Lock()
	defer e.cmu.Unlock()
	var keys []string
	m := map[string]int32{}
	for k, v := range e.coord {
		keys = append(keys, k)
		m[k] = v
	}
	sort.Strings(keys)
	return keys, m
}

func (e *c12Env) setBroker(id int32, host string, ids []int32) {
	e.cmu.Lock()
	if host != "" {
		e.hostOf[id] = host
	}
	e.ids = ids
	e.cmu.Unlock()
}

func (e *c12Env) coordOf(typ int, key string) (int32, string) {
	e.cmu.Lock()
	defer e.cmu.Unlock()
	k := fmt.Sprintf("%d:%s", typ, key)
	id, ok := e.coord[k]
	if !ok {
		// first use of this key: a deterministic choice among the live brokers
		id = e.ids[int(core.HashString(k)%uint64(len(e.ids)))]
		e.setCoordLocked(k, id)
	}
	return id, e.hostOf[id]
}

func (e *c12Env) portOfBroker(id int32) int32 {
	e.cmu.Lock()
	defer e.cmu.Unlock()
	if p := e.portOf[id]; p != 0 {
		return p
	}
	return 9092
}

func c12Run(k *core.Case, cfg c12Cfg, r *core.Rand) *c12Env {
	e := &c12Env{k: k, cfg: cfg, net: fakenet.New(), tables: map[string]map[int]fakecluster.VR{}, addrOf: map[int32]string{}, hostOf: map[int32]string{}, portOf: map[int32]int32{},
		bootIDs: map[int32]bool{}, leaders: map[string]int32{}, coord: map[string]int32{}, coordLog: map[string][]c12CoordChange{}, kinds: map[string]bool{}}
	e.cl = fakecluster.New(e.net)
	for i := range cfg.Brokers {
		b := &cfg.Brokers[i]
		t, capped := c12GenTable(r, b.Profile)
		b.Capped = capped
		host := fmt.Sprintf("b%d", b.ID)
		br := e.cl.AddBrokerAt(b.ID, host, 9092, core.Pick(r, "", "r1", "r2"), t)
		e.tables[br.Addr()] = t
		e.addrOf[b.ID] = br.Addr()
		e.hostOf[b.ID] = host
		e.ids = append(e.ids, b.ID)
		if b.ID >= e.nextID {
			e.nextID = b.ID + 1
		}
	}
	e.cl.SetController(e.ids[r.Intn(len(e.ids))])
	for _, t := range cfg.Topics {
		e.cl.AddTopic(t.Name, t.Parts, nil)
		for p := 0; p < t.Parts; p++ {
			e.placePartition(r, t.Name, int32(p), e.ids[r.Intn(len(e.ids))])
		}
		e.topics = append(e.topics, t)
	}
	e.groups = []string{"g-a", "g-b", "g-c"}[:r.Range(1, 3)]
	e.txns = []string{"tx-a", "tx-b", "tx-c"}[:r.Range(1, 3)]
	e.cl.CoordinatorOf = func(key string) int32 { id, _ := e.coordOf(0, key); return id }
	e.cl.MetaHook = func(map[string]any) { atomic.AddInt64(&e.metaBuilt, 1) }
	for _, key := range append(append([]string(nil), e.groups...), e.txns...) {
		// group and transaction coordinators of the same key are chosen independently
		e.coordOf(0, key)
		e.coordOf(1, key)
	}

	fillers := map[[2]int]map[string]any{}
	var fmu sync.Mutex
	e.cl.Script = func(rc *fakecluster.ReqCtx) *fakecluster.Action {
		switch rc.Ev.API {
		case fakecluster.KFindCoordinator:
			typ := 0
			if rc.Ev.Version >= 1 {
				typ = int(refcodec.Int(rc.Body["KeyType"]))
			}
			key := refcodec.Str(rc.Body["Key"])
			return &fakecluster.Action{Mutate: func(resp map[string]any) {
				id, host := e.coordOf(typ, key)
				resp["ErrorCode"] = int64(0)
				resp["NodeId"] = int64(id)
				resp["Host"] = host
				resp["Port"] = int64(e.portOfBroker(id))
			}}
		case fakecluster.KMetadata, fakecluster.KApiVersions, fakecluster.KProduce, fakecluster.KFetch, fakecluster.KListOffsets,
			fakecluster.KCreateTopics, fakecluster.KDeleteTopics, fakecluster.KOffsetCommit, fakecluster.KOffsetFetch:
			return nil
		}
		// group membership, transaction and admin APIs: answered at once with a schema-filled success
		api, ver := rc.API, rc.Ev.Version
		return &fakecluster.Action{Kind: fakecluster.ActError, Code: 0, Mutate: func(resp map[string]any) {
			fmu.Lock()
			fv := fillers[[2]int{api.Key, ver}]
			if fv == nil {
				fv = fillValue(api.Resp, ver, 0)
				fillers[[2]int{api.Key, ver}] = fv
			}
			fmu.Unlock()
			for k2 := range resp {
				delete(resp, k2)
			}
			for k2, v := range fv {
				resp[k2] = v
			}
		}}
	}

	var bootAddrs []string
	for _, id := range cfg.Boot {
		bootAddrs = append(bootAddrs, e.addrOf[id])
		e.bootIDs[id] = true
	}
	e.boot = kafka.TCP(bootAddrs...)
	e.tr = &kafka.Transport{Dial: e.net.Dialer(c12Owner), ClientID: "verif-c12", MetadataTTL: time.Duration(cfg.TTLms) * time.Millisecond,
		IdleTimeout: 5 * time.Second, DialTimeout: 2 * time.Second}
	if cfg.MetaTopics {
		// every topic the scenario will ever name, so that created topics are covered by the refreshes
		for _, t := range cfg.Topics {
			e.tr.MetadataTopics = append(e.tr.MetadataTopics, t.Name)
		}
		for i := 1; i <= 8; i++ {
			e.tr.MetadataTopics = append(e.tr.MetadataTopics, fmt.Sprintf("new-%d", i))
		}
		e.tr.MetadataTopics = append(e.tr.MetadataTopics, "nope")
	}
	e.client = &kafka.Client{Addr: e.boot, Transport: e.tr, Timeout: 2 * time.Second}

	// stall monitor: when a 500 µs nap oversleeps (scheduling hiccups, GC pauses, CPU starvation)
	stop := make(chan struct{})
	var stallDone sync.WaitGroup
	stallDone.Add(1)
	go func() {
		defer stallDone.Done()
		for {
			select {
			case <-stop:
				return
			default:
			}
			t0 := time.Now()
			time.Sleep(500 * time.Microsecond)
			t1 := time.Now()
			if d := t1.Sub(t0) - 500*time.Microsecond; d > 5*time.Millisecond {
				e.stalls = append(e.stalls, [2]time.Time{t0, t1})
			}
		}
	}()

	for pi, ph := range cfg.Phases {
		pr := r.Fork()
		var wg sync.WaitGroup
		if ph.Event != "none" && !ph.During {
			e.applyEvent(pr, ph.Event)
		}
		for g := 0; g < cfg.Goroutines; g++ {
			gr := pr.Fork()
			wg.Add(1)
			go func() {
				defer wg.Done()
				for i := 0; i < ph.Ops; i++ {
					select {
					case <-k.Cancelled:
						return
					default:
					}
					e.doOp(gr)
				}
			}()
		}
		if ph.Event != "none" && ph.During {
			e.applyEvent(pr, ph.Event)
		}
		wg.Wait()
		_ = pi
		e.waitRefreshes(ph.Wait)
	}
	close(stop)
	stallDone.Wait()
	e.tr.CloseIdleConnections()
	e.cl.Quiesce(2 * time.Second)
	e.cl.Close()
	return e
}

// placePartition makes id the leader of t/p with a replica list in which the leader is not always first.
func (e *c12Env) placePartition(r *core.Rand, t string, p int32, id int32) {
	reps := []int32{id}
	for _, o := range e.ids {
		if o != id && len(reps) < 3 && r.Bool() {
			reps = append(reps, o)
		}
	}
	if len(reps) > 1 {
		i := r.Intn(len(reps))
		reps[0], reps[i] = reps[i], reps[0]
	}
	e.cl.SetPartition(t, p, id, reps)
	e.leaders[fmt.Sprintf("%s/%d", t, p)] = id
}

func (e *c12Env) poolRefreshes() int { return int(atomic.LoadInt64(&e.metaBuilt)) }

// waitRefreshes lets the pool be served n more metadata responses (bounded wait; workload pacing only).
func (e *c12Env) waitRefreshes(n int) {
	if n <= 0 {
		return
	}
	start := e.poolRefreshes()
	deadline := time.Now().Add(time.Duration(e.cfg.TTLms*(n+2)) * time.Millisecond)
	for e.poolRefreshes() < start+n && time.Now().Before(deadline) {
		time.Sleep(time.Millisecond)
	}
	time.Sleep(time.Millisecond) // (the counter counts answers built, the last one is still on its way)
}

func (e *c12Env) otherBroker(r *core.Rand, not int32) (int32, bool) {
	var c []int32
	for _, id := range e.ids {
		if id != not {
			c = append(c, id)
		}
	}
	if len(c) == 0 {
		return 0, false
	}
	return c[r.Intn(len(c))], true
}

func (e *c12Env) moveLeader(r *core.Rand, t string, p int32, to int32) {
	// e.mu held
	key := fmt.Sprintf("%s/%d", t, p)
	old := e.leaders[key]
	if old == to {
		return
	}
	oldAddr := e.addrOf[old]
	e.placePartition(r, t, p, to)
	e.moves = append(e.moves, c12Move{Tick: core.Tick(), Topic: t, Part: p, OldAddr: oldAddr, OldID: old, NewID: to})
}

func (e *c12Env) applyEvent(r *core.Rand, kind string) {
	e.mu.Lock()
	switch kind {
	case "leader-move":
		n := r.Range(1, 3)
		for i := 0; i < n && len(e.topics) > 0; i++ {
			t := e.topics[r.Intn(len(e.topics))]
			p := int32(r.Intn(t.Parts))
			if to, ok := e.otherBroker(r, e.leaders[fmt.Sprintf("%s/%d", t.Name, p)]); ok {
				e.moveLeader(r, t.Name, p, to)
				e.kinds[kind] = true
			}
		}
	case "coord-move":
		keys, cur := e.coordKeys()
		for _, k2 := range keys {
			if r.Chance(2, 3) {
				if to, ok := e.otherBroker(r, cur[k2]); ok {
					e.setCoord(k2, to)
					e.kinds[kind] = true
				}
			}
		}
	case "controller-move":
		e.mu.Unlock()
		e.cl.Lock()
		cur := e.cl.Controller
		e.cl.Unlock()
		e.mu.Lock()
		if to, ok := e.otherBroker(r, cur); ok {
			e.cl.SetController(to)
			e.kinds[kind] = true
		}
	case "broker-add":
		if len(e.ids) < 6 {
			id := e.nextID
			e.nextID++
			t, _ := c12GenTable(r, core.Pick(r, "full", "mixed", "mixed", "old"))
			host := fmt.Sprintf("b%d", id)
			br := e.cl.AddBrokerAt(id, host, 9092, "", t)
			e.tables[br.Addr()] = t
			e.addrOf[id] = br.Addr()
			e.setBroker(id, host, append(append([]int32(nil), e.ids...), id))
			// give the new broker something to lead and coordinate
			for i := 0; i < 2 && len(e.topics) > 0; i++ {
				tp := e.topics[r.Intn(len(e.topics))]
				e.moveLeader(r, tp.Name, int32(r.Intn(tp.Parts)), id)
			}
			keys, _ := e.coordKeys()
			for _, k2 := range keys {
				if r.Chance(1, 3) {
					e.setCoord(k2, id)
				}
			}
			e.kinds[kind] = true
		}
	case "broker-remove":
		var c []int32
		for _, id := range e.ids {
			if !e.bootIDs[id] {
				c = append(c, id)
			}
		}
		if len(c) > 0 && len(e.ids) > 1 {
			id := c[r.Intn(len(c))]
			var rest []int32
			for _, o := range e.ids {
				if o != id {
					rest = append(rest, o)
				}
			}
			e.setBroker(id, "", rest)
			orphan := r.Chance(1, 6) // leave its partitions without a live leader
			for _, t := range e.topics {
				for p := 0; p < t.Parts; p++ {
					if e.leaders[fmt.Sprintf("%s/%d", t.Name, p)] == id && !orphan {
						e.moveLeader(r, t.Name, int32(p), rest[r.Intn(len(rest))])
					}
				}
			}
			keys, cur := e.coordKeys()
			for _, k2 := range keys {
				if cur[k2] == id {
					e.setCoord(k2, rest[r.Intn(len(rest))])
				}
			}
			e.mu.Unlock()
			e.cl.Lock()
			ctl := e.cl.Controller
			e.cl.Unlock()
			if ctl == id {
				e.cl.SetController(rest[r.Intn(len(rest))])
			}
			addr := e.addrOf[id]
			e.cl.RemoveBroker(id)
			if r.Bool() {
				// the process dies: its connections end
				for _, cn := range e.net.Conns() {
					if cn.RemoteAddr().String() == addr {
						cn.Peer().Close()
					}
				}
			}
			e.mu.Lock()
			delete(e.addrOf, id)
			e.kinds[kind] = true
		}
	case "broker-readdress":
		id := e.ids[r.Intn(len(e.ids))]
		e.readdr++
		// the broker keeps its id and re-registers on a new host, on a new port of the same host, or both
		mode := core.Pick(r, "host", "port", "both")
		e.cmu.Lock()
		host := e.hostOf[id]
		e.cmu.Unlock()
		port := e.portOfBroker(id)
		if mode != "port" {
			host = fmt.Sprintf("b%dr%d", id, e.readdr)
		}
		if mode != "host" {
			port = 9092 + int32(e.readdr)
		}
		t := e.tables[e.addrOf[id]]
		if r.Bool() {
			t, _ = c12GenTable(r, "mixed")
		}
		br := e.cl.AddBrokerAt(id, host, port, "", t)
		e.tables[br.Addr()] = t
		e.addrOf[id] = br.Addr()
		e.cmu.Lock()
		e.portOf[id] = port
		e.cmu.Unlock()
		e.setBroker(id, host, e.ids)
		e.kinds[kind] = true
		e.kinds[kind+":"+mode] = true
	case "topic-create":
		e.created++
		name := fmt.Sprintf("new-%d", e.created)
		parts := r.Range(1, 3)
		e.mu.Unlock()
		c := &c12Call{APIs: []int{fakecluster.KCreateTopics}, Name: "CreateTopics", Via: "client", T0: core.Tick()}
		ctx, cancel := context.WithTimeout(context.Background(), 3*time.Second)
		res, err := e.client.CreateTopics(ctx, &kafka.CreateTopicsRequest{Topics: []kafka.TopicConfig{{Topic: name, NumPartitions: parts, ReplicationFactor: 1}}})
		cancel()
		c.T1 = core.Tick()
		ok := err == nil && res != nil && res.Errors[name] == nil
		if err != nil {
			c.Err = err.Error()
		}
		e.record(c)
		e.mu.Lock()
		if ok {
			// the fake controller spreads the leaders over the brokers in id order
			e.cl.Lock()
			if t := e.cl.Topics[name]; t != nil {
				for _, p := range t.Partitions {
					e.leaders[fmt.Sprintf("%s/%d", name, p.ID)] = p.Leader
				}
			}
			e.cl.Unlock()
			e.topics = append(e.topics, c12TopicCfg{Name: name, Parts: parts})
			e.kinds[kind] = true
		}
	}
	e.mu.Unlock()
}

// ---------------------------------------------------------------- requests

func c12Recs() protocol.RecordReader {
	return protocol.NewRecordReader(protocol.Record{Time: time.UnixMilli(tsBase), Value: protocol.NewBytes([]byte("v"))})
}

func (e *c12Env) doOp(r *core.Rand) {
	topo := e.topo()
	e.mu.Lock()
	groups, txns := e.groups, e.txns
	e.mu.Unlock()
	pickTP := func() (string, int32) {
		if r.Chance(1, 40) {
			return "nope", 0
		}
		t := topo[r.Intn(len(topo))]
		p := int32(r.Intn(t.Parts))
		if r.Chance(1, 30) {
			p = int32(t.Parts) + 1
		}
		return t.Name, p
	}
	tpKey := func(t string, p int32) string { return fmt.Sprintf("tp:%s/%d", t, p) }
	g := groups[r.Intn(len(groups))]
	x := txns[r.Intn(len(txns))]
	t, p := pickTP()
	viaClient := r.Chance(2, 5)

	call := &c12Call{Via: "roundtrip"}
	var req protocol.Message
	var cl func(ctx context.Context) error
	set := func(api int, keys ...string) {
		call.APIs = []int{api}
		call.Name = c12APIName(api)
		call.Keys = keys
	}
	switch w := r.Intn(100); {
	case w < 12: // Produce
		set(fakecluster.KProduce, tpKey(t, p))
		if viaClient {
			cl = func(ctx context.Context) error {
				_, err := e.client.Produce(ctx, &kafka.ProduceRequest{Topic: t, Partition: int(p), RequiredAcks: kafka.RequireOne, Records: kafka.NewRecordReader(kafka.Record{Time: time.UnixMilli(tsBase), Value: kafka.NewBytes([]byte("v"))})})
				return err
			}
		} else {
			parts := []produce.RequestPartition{{Partition: p, RecordSet: protocol.RecordSet{Records: c12Recs()}}}
			if r.Chance(1, 4) {
				// a second partition of the same topic (the library refuses the request when the leaders differ)
				for _, tc := range topo {
					if tc.Name == t && tc.Parts > 1 {
						p2 := (p + 1) % int32(tc.Parts)
						if p2 != p {
							parts = append(parts, produce.RequestPartition{Partition: p2, RecordSet: protocol.RecordSet{Records: c12Recs()}})
							call.Keys = append(call.Keys, tpKey(t, p2))
						}
					}
				}
			}
			acks := int16(1)
			if r.Chance(1, 10) {
				acks = -1
			}
			req = &produce.Request{Acks: acks, Timeout: 100, Topics: []produce.RequestTopic{{Topic: t, Partitions: parts}}}
		}
	case w < 24: // Fetch
		set(fakecluster.KFetch, tpKey(t, p))
		if viaClient {
			cl = func(ctx context.Context) error {
				res, err := e.client.Fetch(ctx, &kafka.FetchRequest{Topic: t, Partition: int(p), Offset: 0, MinBytes: 0, MaxBytes: 1 << 16, MaxWait: 2 * time.Millisecond})
				if err == nil && res.Records != nil {
					for {
						rec, rerr := res.Records.ReadRecord()
						if rerr != nil {
							break
						}
						if rec.Key != nil {
							rec.Key.Close()
						}
						if rec.Value != nil {
							rec.Value.Close()
						}
					}
				}
				return err
			}
		} else {
			req = &fetch.Request{ReplicaID: -1, MaxWaitTime: 2, MinBytes: 0, MaxBytes: 1 << 20, Topics: []fetch.RequestTopic{{Topic: t, Partitions: []fetch.RequestPartition{{Partition: p, FetchOffset: 0, PartitionMaxBytes: 1 << 16}}}}}
		}
	case w < 38: // ListOffsets over several partitions (split per partition)
		set(fakecluster.KListOffsets)
		n := r.Range(1, 4)
		byTopic := map[string][]int32{}
		var order []string
		seen := map[string]bool{}
		for i := 0; i < n; i++ {
			t2, p2 := pickTP()
			if seen[tpKey(t2, p2)] {
				continue
			}
			seen[tpKey(t2, p2)] = true
			if _, ok := byTopic[t2]; !ok {
				order = append(order, t2)
			}
			byTopic[t2] = append(byTopic[t2], p2)
			call.Keys = append(call.Keys, tpKey(t2, p2))
		}
		if viaClient {
			m := map[string][]kafka.OffsetRequest{}
			for t2, ps := range byTopic {
				for _, p2 := range ps {
					m[t2] = append(m[t2], kafka.OffsetRequest{Partition: int(p2), Timestamp: kafka.LastOffset})
				}
			}
			cl = func(ctx context.Context) error {
				_, err := e.client.ListOffsets(ctx, &kafka.ListOffsetsRequest{Topics: m})
				return err
			}
		} else {
			lr := &listoffsets.Request{ReplicaID: -1}
			for _, t2 := range order {
				rt := listoffsets.RequestTopic{Topic: t2}
				for _, p2 := range byTopic[t2] {
					rt.Partitions = append(rt.Partitions, listoffsets.RequestPartition{Partition: p2, Timestamp: -1})
				}
				lr.Topics = append(lr.Topics, rt)
			}
			req = lr
		}
	case w < 42: // OffsetCommit
		set(fakecluster.KOffsetCommit, "g:"+g)
		if viaClient {
			cl = func(ctx context.Context) error {
				_, err := e.client.OffsetCommit(ctx, &kafka.OffsetCommitRequest{GroupID: g, GenerationID: -1, Topics: map[string][]kafka.OffsetCommit{t: {{Partition: int(p), Offset: 3}}}})
				return err
			}
		} else {
			req = &offsetcommit.Request{GroupID: g, GenerationID: -1, Topics: []offsetcommit.RequestTopic{{Name: t, Partitions: []offsetcommit.RequestPartition{{PartitionIndex: p, CommittedOffset: 3}}}}}
		}
	case w < 46: // OffsetFetch
		set(fakecluster.KOffsetFetch, "g:"+g)
		if viaClient {
			cl = func(ctx context.Context) error {
				_, err := e.client.OffsetFetch(ctx, &kafka.OffsetFetchRequest{GroupID: g, Topics: map[string][]int{t: {int(p)}}})
				return err
			}
		} else {
			req = &offsetfetch.Request{GroupID: g, Topics: []offsetfetch.RequestTopic{{Name: t, PartitionIndexes: []int32{p}}}}
		}
	case w < 49: // JoinGroup
		set(fakecluster.KJoinGroup, "g:"+g)
		req = &joingroup.Request{GroupID: g, SessionTimeoutMS: 1000, RebalanceTimeoutMS: 1000, ProtocolType: "consumer", Protocols: []joingroup.RequestProtocol{{Name: "range", Metadata: []byte{0, 1, 0, 0, 0, 0, 0, 0, 0, 0}}}}
	case w < 52: // SyncGroup
		set(fakecluster.KSyncGroup, "g:"+g)
		req = &syncgroup.Request{GroupID: g, GenerationID: 1, MemberID: "m"}
	case w < 58: // Heartbeat
		set(fakecluster.KHeartbeat, "g:"+g)
		if viaClient {
			cl = func(ctx context.Context) error {
				_, err := e.client.Heartbeat(ctx, &kafka.HeartbeatRequest{GroupID: g, GenerationID: 1, MemberID: "m"})
				return err
			}
		} else {
			req = &heartbeat.Request{GroupID: g, GenerationID: 1, MemberID: "m"}
		}
	case w < 61: // LeaveGroup
		set(fakecluster.KLeaveGroup, "g:"+g)
		if viaClient {
			cl = func(ctx context.Context) error {
				_, err := e.client.LeaveGroup(ctx, &kafka.LeaveGroupRequest{GroupID: g, Members: []kafka.LeaveGroupRequestMember{{ID: "m"}}})
				return err
			}
		} else {
			req = &leavegroup.Request{GroupID: g, MemberID: "m", Members: []leavegroup.RequestMember{{MemberID: "m"}}}
		}
	case w < 65: // DescribeGroups (split per group)
		set(fakecluster.KDescribeGroups)
		gs := []string{g}
		if r.Bool() {
			for _, o := range groups {
				if o != g {
					gs = append(gs, o)
				}
			}
		}
		for _, o := range gs {
			call.Keys = append(call.Keys, "g:"+o)
		}
		req = &describegroups.Request{Groups: gs}
	case w < 67: // DeleteGroups
		set(42, "g:"+g)
		gs := []string{g}
		if r.Chance(1, 3) && len(groups) > 1 {
			o := groups[r.Intn(len(groups))]
			if o != g {
				gs = append(gs, o)
				call.Keys = append(call.Keys, "g:"+o)
			}
		}
		if viaClient {
			cl = func(ctx context.Context) error {
				_, err := e.client.DeleteGroups(ctx, &kafka.DeleteGroupsRequest{GroupIDs: gs})
				return err
			}
		} else {
			req = &deletegroups.Request{GroupIDs: gs}
		}
	case w < 69: // OffsetDelete
		set(47, "g:"+g)
		if viaClient {
			cl = func(ctx context.Context) error {
				_, err := e.client.OffsetDelete(ctx, &kafka.OffsetDeleteRequest{GroupID: g, Topics: map[string][]int{t: {int(p)}}})
				return err
			}
		} else {
			req = &offsetdelete.Request{GroupID: g, Topics: []offsetdelete.RequestTopic{{Name: t, Partitions: []offsetdelete.RequestPartition{{PartitionIndex: p}}}}}
		}
	case w < 72: // TxnOffsetCommit -> group coordinator
		set(28, "g:"+g)
		if viaClient {
			cl = func(ctx context.Context) error {
				_, err := e.client.TxnOffsetCommit(ctx, &kafka.TxnOffsetCommitRequest{TransactionalID: x, GroupID: g, ProducerID: 1, Topics: map[string][]kafka.TxnOffsetCommit{t: {{Partition: int(p), Offset: 1}}}})
				return err
			}
		} else {
			req = &txnoffsetcommit.Request{TransactionalID: x, GroupID: g, ProducerID: 1, Topics: []txnoffsetcommit.RequestTopic{{Name: t, Partitions: []txnoffsetcommit.RequestPartition{{Partition: p, CommittedOffset: 1}}}}}
		}
	case w < 76: // InitProducerId
		set(fakecluster.KInitProducerID, "x:"+x)
		if viaClient {
			cl = func(ctx context.Context) error {
				_, err := e.client.InitProducerID(ctx, &kafka.InitProducerIDRequest{TransactionalID: x, TransactionTimeoutMs: 100})
				return err
			}
		} else {
			req = &initproducerid.Request{TransactionalID: x, TransactionTimeoutMs: 100}
		}
	case w < 79: // AddPartitionsToTxn
		set(24, "x:"+x)
		if viaClient {
			cl = func(ctx context.Context) error {
				_, err := e.client.AddPartitionsToTxn(ctx, &kafka.AddPartitionsToTxnRequest{TransactionalID: x, ProducerID: 1, Topics: map[string][]kafka.AddPartitionToTxn{t: {{Partition: int(p)}}}})
				return err
			}
		} else {
			req = &addpartitionstotxn.Request{TransactionalID: x, ProducerID: 1, Topics: []addpartitionstotxn.RequestTopic{{Name: t, Partitions: []int32{p}}}}
		}
	case w < 82: // AddOffsetsToTxn -> transaction coordinator
		set(25, "x:"+x)
		if viaClient {
			cl = func(ctx context.Context) error {
				_, err := e.client.AddOffsetsToTxn(ctx, &kafka.AddOffsetsToTxnRequest{TransactionalID: x, ProducerID: 1, GroupID: g})
				return err
			}
		} else {
			req = &addoffsetstotxn.Request{TransactionalID: x, ProducerID: 1, GroupID: g}
		}
	case w < 85: // EndTxn
		set(26, "x:"+x)
		if viaClient {
			cl = func(ctx context.Context) error {
				_, err := e.client.EndTxn(ctx, &kafka.EndTxnRequest{TransactionalID: x, ProducerID: 1, Committed: true})
				return err
			}
		} else {
			req = &endtxn.Request{TransactionalID: x, ProducerID: 1, Committed: true}
		}
	case w < 87: // CreateTopics -> controller
		set(fakecluster.KCreateTopics)
		name := topo[0].Name // exists: refused by the controller, no refresh follows
		if !e.cfg.MetaTopics {
			// a scratch topic (with MetadataTopics set the refreshes would never show it and RoundTrip would wait for it)
			e.mu.Lock()
			name = fmt.Sprintf("scratch-%d", len(e.scratch)+1)
			e.scratch = append(e.scratch, name)
			e.mu.Unlock()
		}
		req = &createtopics.Request{TimeoutMs: 100, Topics: []createtopics.RequestTopic{{Name: name, NumPartitions: 1, ReplicationFactor: 1}}}
	case w < 89: // DeleteTopics -> controller
		set(fakecluster.KDeleteTopics)
		e.mu.Lock()
		name := "absent"
		if len(e.scratch) > 0 && r.Bool() {
			name = e.scratch[r.Intn(len(e.scratch))]
		}
		e.mu.Unlock()
		if viaClient {
			cl = func(ctx context.Context) error {
				_, err := e.client.DeleteTopics(ctx, &kafka.DeleteTopicsRequest{Topics: []string{name}})
				return err
			}
		} else {
			req = &deletetopics.Request{TopicNames: []string{name}, TimeoutMs: 100}
		}
	case w < 91: // CreatePartitions -> controller
		set(37)
		req = &createpartitions.Request{TimeoutMs: 100, ValidateOnly: true, Topics: []createpartitions.RequestTopic{{Name: t, Count: 5}}}
	case w < 93: // ListGroups (split to every broker)
		set(fakecluster.KListGroups)
		if viaClient {
			cl = func(ctx context.Context) error {
				_, err := e.client.ListGroups(ctx, &kafka.ListGroupsRequest{})
				return err
			}
		} else {
			req = &listgroups.Request{}
		}
	case w < 94: // FindCoordinator, ApiVersions: any broker
		if r.Bool() {
			set(fakecluster.KFindCoordinator)
			req = &findcoordinator.Request{Key: g}
		} else {
			set(fakecluster.KApiVersions)
			req = &apiversions.Request{}
		}
	default: // Client.Metadata with a topic filter: served from the cache
		call.IsMeta = true
		call.APIs = []int{fakecluster.KMetadata}
		call.Name = "Metadata"
		call.Via = "client"
		switch r.Intn(5) {
		case 0:
			call.Filter = nil
		case 1:
			call.Filter = []string{}
		default:
			n := r.Range(1, 4)
			for i := 0; i < n; i++ {
				switch r.Intn(6) {
				case 0:
					call.Filter = append(call.Filter, core.Pick(r, "nope", "zzz-unknown", "0-unknown"))
				default:
					call.Filter = append(call.Filter, topo[r.Intn(len(topo))].Name)
				}
			}
		}
	}

	ctx, cancel := context.WithTimeout(context.Background(), 2*time.Second)
	defer cancel()
	var err error
	call.T0 = core.Tick()
	switch {
	case call.IsMeta:
		call.MetaRes, err = e.client.Metadata(ctx, &kafka.MetadataRequest{Topics: call.Filter})
	case cl != nil:
		call.Via = "client"
		err = cl(ctx)
	default:
		var m protocol.Message
		m, err = e.tr.RoundTrip(ctx, e.boot, req)
		if fr, ok := m.(*fetch.Response); ok && err == nil {
			msgDigest(fr) // drain the record readers
		}
	}
	call.T1 = core.Tick()
	if err != nil {
		call.Err = err.Error()
	}
	e.record(call)
}

// ---------------------------------------------------------------- driver

func c12GenCfg(r *core.Rand) c12Cfg {
	var cfg c12Cfg
	nb := core.Pick(r, 1, 2, 2, 3, 3, 4, 5)
	base := core.Pick(r, int32(0), 1, 1, 1, 10)
	for i := 0; i < nb; i++ {
		cfg.Brokers = append(cfg.Brokers, c12BrokerCfg{ID: base + int32(i), Profile: core.Pick(r, "full", "mixed", "mixed", "mixed", "old", "new")})
	}
	nt := r.Range(1, 4)
	for i := 0; i < nt; i++ {
		cfg.Topics = append(cfg.Topics, c12TopicCfg{Name: fmt.Sprintf("t%d", i), Parts: r.Range(1, 4)})
	}
	cfg.Boot = []int32{cfg.Brokers[r.Intn(nb)].ID}
	if nb > 1 && r.Chance(1, 3) {
		o := cfg.Brokers[r.Intn(nb)].ID
		if o != cfg.Boot[0] {
			cfg.Boot = append(cfg.Boot, o)
		}
	}
	cfg.TTLms = r.Range(20, 60)
	cfg.Goroutines = core.Pick(r, 1, 1, 2, 3, 4, 6, 8)
	cfg.MetaTopics = r.Chance(1, 6)
	np := r.Range(4, 8)
	for i := 0; i < np; i++ {
		ev := "none"
		if i > 0 || r.Chance(1, 4) {
			ev = core.Pick(r, "leader-move", "leader-move", "leader-move", "coord-move", "controller-move", "broker-add", "broker-remove", "broker-readdress", "topic-create", "topic-create", "none")
		}
		cfg.Phases = append(cfg.Phases, c12Phase{Event: ev, During: r.Chance(1, 3), Ops: r.Range(2, 5), Wait: core.Pick(r, 0, 1, 2, 2, 3)})
	}
	return cfg
}

func runC12(c *core.Ctx) {
	n := c.N(2500, 70000)
	var nontrivial int64
	c.CasesPar("scenario", n, 2, func(k *core.Case) {
		r := k.R
		cfg := c12GenCfg(r)
		r0 := *r
		env := c12Run(k, cfg, r)
		k.Describe(env.cfg)
		st := c12Check(k, env)
		c.Eval(1)
		if len(st.window) > 0 {
			// verdicts that hinge on which served response the pool was still using: run the scenario again
			r2 := r0
			env2 := c12Run(k, cfg, &r2)
			st2 := c12Check(k, env2)
			c.Count("scenarios_run_twice", 1)
			seen := map[string]bool{}
			for _, v := range st.window {
				seen[v.Key] = true
			}
			for _, v := range st2.window {
				if seen[v.Key] {
					k.Viol(v.Key, v.What+" (this verdict was drawn in two runs of the scenario)", v.Witness)
				}
			}
		}
		if len(cfg.Brokers) >= 2 || st.cappedSeen {
			atomic.AddInt64(&nontrivial, 1)
			for sig := range st.sigs {
				c.Distinct(sig)
			}
		}
		if k.Idx%157 == 0 {
			c.Sample(map[string]any{"brokers": env.cfg.Brokers, "topics": cfg.Topics, "ttl_ms": cfg.TTLms, "goroutines": cfg.Goroutines, "phases": cfg.Phases,
				"requests_checked": st.checked, "metadata_refreshes": st.views, "history": strings.Join(st.kinds, ",")})
		}
	})
	c.Count("scenarios_nontrivial", atomic.LoadInt64(&nontrivial))
}
