package props

import (
	"encoding/binary"
	"encoding/hex"
	"fmt"
	"os"
	"sort"
	"strings"
	"time"

	"github.com/segmentio/kafka-go/protocol"
	"github.com/segmentio/kafka-go/protocol/addoffsetstotxn"
	"github.com/segmentio/kafka-go/protocol/addpartitionstotxn"
	"github.com/segmentio/kafka-go/protocol/alterclientquotas"
	"github.com/segmentio/kafka-go/protocol/alterconfigs"
	"github.com/segmentio/kafka-go/protocol/alterpartitionreassignments"
	"github.com/segmentio/kafka-go/protocol/alteruserscramcredentials"
	"github.com/segmentio/kafka-go/protocol/apiversions"
	"github.com/segmentio/kafka-go/protocol/createacls"
	"github.com/segmentio/kafka-go/protocol/createpartitions"
	"github.com/segmentio/kafka-go/protocol/createtopics"
	"github.com/segmentio/kafka-go/protocol/deleteacls"
	"github.com/segmentio/kafka-go/protocol/deletegroups"
	"github.com/segmentio/kafka-go/protocol/deletetopics"
	"github.com/segmentio/kafka-go/protocol/describeacls"
	"github.com/segmentio/kafka-go/protocol/describeclientquotas"
	"github.com/segmentio/kafka-go/protocol/describeconfigs"
	"github.com/segmentio/kafka-go/protocol/describegroups"
	"github.com/segmentio/kafka-go/protocol/describeuserscramcredentials"
	"github.com/segmentio/kafka-go/protocol/electleaders"
	"github.com/segmentio/kafka-go/protocol/endtxn"
	"github.com/segmentio/kafka-go/protocol/fetch"
	"github.com/segmentio/kafka-go/protocol/findcoordinator"
	"github.com/segmentio/kafka-go/protocol/heartbeat"
	"github.com/segmentio/kafka-go/protocol/incrementalalterconfigs"
	"github.com/segmentio/kafka-go/protocol/initproducerid"
	"github.com/segmentio/kafka-go/protocol/joingroup"
	"github.com/segmentio/kafka-go/protocol/leavegroup"
	"github.com/segmentio/kafka-go/protocol/listgroups"
	"github.com/segmentio/kafka-go/protocol/listoffsets"
	"github.com/segmentio/kafka-go/protocol/listpartitionreassignments"
	"github.com/segmentio/kafka-go/protocol/metadata"
	"github.com/segmentio/kafka-go/protocol/offsetcommit"
	"github.com/segmentio/kafka-go/protocol/offsetdelete"
	"github.com/segmentio/kafka-go/protocol/offsetfetch"
	"github.com/segmentio/kafka-go/protocol/produce"
	"github.com/segmentio/kafka-go/protocol/saslauthenticate"
	"github.com/segmentio/kafka-go/protocol/saslhandshake"
	"github.com/segmentio/kafka-go/protocol/syncgroup"
	"github.com/segmentio/kafka-go/protocol/txnoffsetcommit"

	"verifharness/core"
	"verifharness/refcodec"
)

// C20 — malformed length fields from the network cannot crash or balloon the
// client.

func init() {
	core.Register(&core.Prop{
		ID:    "C20",
		Level: "exploration",
		Rule: "schema list: one case = one generated well-formed response frame of one (api, version) the reference codec has a schema for (every array/string/bytes/tag buffer non-empty at least once, Fetch frames carrying v2 batches, compressed batches, legacy messages and wrappers) and ALL its mutants: every length/count field (frame size, string/bytes/array length fixed and compact, tagged-field count and size, record-set size, batch length, message size, record count, per-record varints) x every value of the quantifier (-1,-2,0,len-1,len+1,remaining+1,2^15-1,2^24,2^31-1,-2^31; varints also 2^31,2^32,2^63-1,2^63,2^64-1,11 bytes unterminated), varints re-encoded with the size prefixes kept consistent and also left stale, checksum-covered fields with the checksum stale (claim) and recomputed (informational); " +
			"blind list: library-encoded walker-generated responses of every registered (api, version), mutated at byte offsets as if an int16/int32/uvarint length started there; 5% of the schema mutants of APIs kafka.Client can call are also sent by a fake broker through kafka.Client -> kafka.Transport. " +
			"Every input is decoded in a helper process (4 GiB address space, GOMAXPROCS=1). signature = (api, version, field role, value class, outcome class); non-trivial = a mutated frame (the unmutated base frames are evaluated but not counted as distinct)",
		Assumptions: []string{
			"the decode entry point is protocol.ReadResponse on a bufio.Reader (what protocol.Conn hands to it), followed by reading every record of a decoded Fetch response (record sets are decoded lazily)",
			"bytes allocated by a decode = difference of runtime/metrics /gc/heap/allocs:bytes around it in a process that runs nothing else; an excess is confirmed by a second decode between two runtime.ReadMemStats (exact, caches flushed) before it is reported; bound 1 MiB + 256 x len(frame)",
			"a decode that is still running after 200 ms and has by then already allocated more than the bound is reported as over-allocation (the counter is monotonic); one that does not return within 10 s without exceeding the bound is inconclusive",
			"process death is observed under RLIMIT_AS = 4 GiB: an allocation the runtime cannot satisfy there is 'fatal error: out of memory'",
			"stack-mode allocation bound has 16 MiB of slack for the in-process fake broker and network",
			"fields covered by a record-batch / message checksum: with the checksum recomputed the results are informational (counters info:*), not violations",
			"circuit breaker: after 20 process deaths / stopped over-allocating decodes with the same (site, role) in a shard (2 for 10 s hangs of one (role, value class, kind)), further inputs of the (role, value class, kind) classes that produced them are skipped in that shard and counted (skipped_after_breaker); nothing is skipped on a tree without such outcomes",
		},
		CaseTimeout: 15 * time.Minute,
		Run:         runC20,
	})
}

type c20Type struct {
	Key  int16
	Name string
	New  func() protocol.Message
}

var c20Types = []c20Type{
	{0, "Produce", func() protocol.Message { return &produce.Response{} }},
	{1, "Fetch", func() protocol.Message { return &fetch.Response{} }},
	{2, "ListOffsets", func() protocol.Message { return &listoffsets.Response{} }},
	{3, "Metadata", func() protocol.Message { return &metadata.Response{} }},
	{8, "OffsetCommit", func() protocol.Message { return &offsetcommit.Response{} }},
	{9, "OffsetFetch", func() protocol.Message { return &offsetfetch.Response{} }},
	{10, "FindCoordinator", func() protocol.Message { return &findcoordinator.Response{} }},
	{11, "JoinGroup", func() protocol.Message { return &joingroup.Response{} }},
	{12, "Heartbeat", func() protocol.Message { return &heartbeat.Response{} }},
	{13, "LeaveGroup", func() protocol.Message { return &leavegroup.Response{} }},
	{14, "SyncGroup", func() protocol.Message { return &syncgroup.Response{} }},
	{15, "DescribeGroups", func() protocol.Message { return &describegroups.Response{} }},
	{16, "ListGroups", func() protocol.Message { return &listgroups.Response{} }},
	{17, "SaslHandshake", func() protocol.Message { return &saslhandshake.Response{} }},
	{18, "ApiVersions", func() protocol.Message { return &apiversions.Response{} }},
	{19, "CreateTopics", func() protocol.Message { return &createtopics.Response{} }},
	{20, "DeleteTopics", func() protocol.Message { return &deletetopics.Response{} }},
	{22, "InitProducerId", func() protocol.Message { return &initproducerid.Response{} }},
	{24, "AddPartitionsToTxn", func() protocol.Message { return &addpartitionstotxn.Response{} }},
	{25, "AddOffsetsToTxn", func() protocol.Message { return &addoffsetstotxn.Response{} }},
	{26, "EndTxn", func() protocol.Message { return &endtxn.Response{} }},
	{28, "TxnOffsetCommit", func() protocol.Message { return &txnoffsetcommit.Response{} }},
	{29, "DescribeAcls", func() protocol.Message { return &describeacls.Response{} }},
	{30, "CreateAcls", func() protocol.Message { return &createacls.Response{} }},
	{31, "DeleteAcls", func() protocol.Message { return &deleteacls.Response{} }},
	{32, "DescribeConfigs", func() protocol.Message { return &describeconfigs.Response{} }},
	{33, "AlterConfigs", func() protocol.Message { return &alterconfigs.Response{} }},
	{36, "SaslAuthenticate", func() protocol.Message { return &saslauthenticate.Response{} }},
	{37, "CreatePartitions", func() protocol.Message { return &createpartitions.Response{} }},
	{42, "DeleteGroups", func() protocol.Message { return &deletegroups.Response{} }},
	{43, "ElectLeaders", func() protocol.Message { return &electleaders.Response{} }},
	{44, "IncrementalAlterConfigs", func() protocol.Message { return &incrementalalterconfigs.Response{} }},
	{45, "AlterPartitionReassignments", func() protocol.Message { return &alterpartitionreassignments.Response{} }},
	{46, "ListPartitionReassignments", func() protocol.Message { return &listpartitionreassignments.Response{} }},
	{47, "OffsetDelete", func() protocol.Message { return &offsetdelete.Response{} }},
	{48, "DescribeClientQuotas", func() protocol.Message { return &describeclientquotas.Response{} }},
	{49, "AlterClientQuotas", func() protocol.Message { return &alterclientquotas.Response{} }},
	{50, "DescribeUserScramCredentials", func() protocol.Message { return &describeuserscramcredentials.Response{} }},
	{51, "AlterUserScramCredentials", func() protocol.Message { return &alteruserscramcredentials.Response{} }},
}

type c20Pair struct {
	T   *c20Type
	Ver int16
	API *refcodec.API // nil: no reference schema for this version
}

// c20Pairs lists every registered (response type, version); schema says
// whether only those with a reference schema are wanted.
func c20Pairs(schema bool) []c20Pair {
	var out []c20Pair
	for i := range c20Types {
		t := &c20Types[i]
		k := protocol.ApiKey(t.Key)
		if m := t.New(); m.ApiKey() != k {
			panic(fmt.Sprintf("c20: type table: %s has key %d", t.Name, m.ApiKey()))
		}
		for v := k.MinVersion(); v <= k.MaxVersion(); v++ {
			api := refcodec.APIs[int(t.Key)]
			if api != nil && !api.Versions.Has(int(v)) {
				api = nil
			}
			if schema && api == nil {
				continue
			}
			out = append(out, c20Pair{t, v, api})
		}
	}
	return out
}

// c20Mutants builds every mutant of the frame for the listed fields.
func c20Mutants(p c20Pair, frame []byte, fields []c20Field) []*c20Input {
	var out []*c20Input
	mk := func(f *c20Field, m c20Mut, variant string, b []byte, info bool) {
		out = append(out, &c20Input{Mode: 'd', API: p.T.Key, Ver: p.Ver, APIName: p.T.Name, Frame: b,
			Role: f.Role, Kind: f.Kind, Path: f.Path, VClass: m.VClass, Variant: variant, Info: info})
	}
	// two fields at once: the length under test and the frame size, which announces 2^30 bytes while
	// only the original bytes arrive. The statement bounds allocation by the bytes actually received,
	// so a length that is consistent with the announced frame size only must not size an allocation.
	inflated := func(f *c20Field, m c20Mut, b []byte) {
		if f.Role == "framesize" || len(b) < 4 {
			return
		}
		switch m.VClass {
		case "2^15-1", "2^24", "2^31-1", "remaining+1":
			fx := append([]byte(nil), b...)
			binary.BigEndian.PutUint32(fx, 1<<30)
			mk(f, m, "frame-size-2^30", fx, false)
		}
	}
	for i := range fields {
		f := &fields[i]
		for _, m := range c20Values(frame, f) {
			widthChanged := len(m.Bytes) != f.Width
			switch {
			case f.Kind != "record-batch":
				mk(f, m, "", c20Splice(frame, f, m.Bytes, true), false)
				inflated(f, m, c20Splice(frame, f, m.Bytes, true))
				if widthChanged {
					mk(f, m, "stale-size", c20Splice(frame, f, m.Bytes, false), false)
				}
			case f.Covered:
				b := c20Splice(frame, f, m.Bytes, true)
				mk(f, m, "crc-stale", b, false)
				fx := append([]byte(nil), b...)
				if c20FixCRC(fx, f.UnitStart, f.Magic) {
					mk(f, m, "crc-fixed", fx, true)
				}
				if widthChanged {
					mk(f, m, "crc-stale+stale-size", c20Splice(frame, f, m.Bytes, false), false)
				}
			default: // batch length, message size: not covered by the checksum
				b := c20Splice(frame, f, m.Bytes, true)
				mk(f, m, "", b, false)
				fx := append([]byte(nil), b...)
				if c20FixCRC(fx, f.UnitStart, f.Magic) && string(fx) != string(b) {
					mk(f, m, "crc-fixed", fx, true)
				}
			}
		}
	}
	return out
}

var c20BlindI16 = []struct {
	c string
	v int16
}{{"2^15-1", 1<<15 - 1}, {"-2", -2}, {"-2^15", -1 << 15}}

var c20BlindI32 = []struct {
	c string
	v int32
}{{"2^31-1", 1<<31 - 1}, {"-2^31", -1 << 31}, {"-2", -2}, {"2^24", 1 << 24}}

var c20BlindUv = []struct {
	c string
	b []byte
}{{"2^31", c20PutUvarint(1 << 31)}, {"2^63", c20PutUvarint(1 << 63)}, {"2^64-1", c20PutUvarint(^uint64(0))}, {"2^24", c20PutUvarint(1 << 24)}, {"nonterm11", c20NonTerm}}

// c20BlindAll enumerates the blind mutants of a frame: (offset, kind, value).
func c20BlindCount(frame []byte) int {
	return (len(frame) - 4) * (len(c20BlindI16) + len(c20BlindI32) + len(c20BlindUv))
}

func c20BlindMutant(p c20Pair, frame []byte, idx int) *c20Input {
	per := len(c20BlindI16) + len(c20BlindI32) + len(c20BlindUv)
	off := 4 + idx/per
	j := idx % per
	in := &c20Input{Mode: 'd', API: p.T.Key, Ver: p.Ver, APIName: p.T.Name, Kind: "body", Path: fmt.Sprintf("@%d", off)}
	switch {
	case j < len(c20BlindI16):
		if off+2 > len(frame) {
			return nil
		}
		b := append([]byte(nil), frame...)
		binary.BigEndian.PutUint16(b[off:], uint16(c20BlindI16[j].v))
		in.Role, in.VClass, in.Frame = "blind-i16", c20BlindI16[j].c, b
	case j < len(c20BlindI16)+len(c20BlindI32):
		j -= len(c20BlindI16)
		if off+4 > len(frame) {
			return nil
		}
		b := append([]byte(nil), frame...)
		binary.BigEndian.PutUint32(b[off:], uint32(c20BlindI32[j].v))
		in.Role, in.VClass, in.Frame = "blind-i32", c20BlindI32[j].c, b
	default:
		j -= len(c20BlindI16) + len(c20BlindI32)
		f := &c20Field{Off: off, Width: 1, Encl: []int{0}}
		in.Role, in.VClass, in.Frame = "blind-uvarint", c20BlindUv[j].c, c20Splice(frame, f, c20BlindUv[j].b, true)
	}
	if string(in.Frame) == string(frame) {
		return nil
	}
	return in
}

func c20Hex(b []byte) string {
	if len(b) > 2048 {
		return hex.EncodeToString(b[:2048]) + fmt.Sprintf("...(%d bytes)", len(b))
	}
	return hex.EncodeToString(b)
}

// c20CrashGoroutine returns the first goroutine block of a crash report (the
// goroutine that panicked or hit the fatal error).
func c20CrashGoroutine(st string) string {
	i := strings.Index(st, "\ngoroutine ")
	if i < 0 {
		return ""
	}
	st = st[i+1:]
	if j := strings.Index(st, "\n\n"); j >= 0 {
		st = st[:j]
	}
	return st
}

func c20FirstLine(s string) string {
	for _, l := range strings.Split(s, "\n") {
		if strings.HasPrefix(l, "fatal error:") || strings.HasPrefix(l, "panic:") {
			return l
		}
	}
	if i := strings.Index(s, "\n"); i >= 0 {
		return s[:i]
	}
	return s
}

// c20Judge applies the oracles to one evaluated input.
func c20Judge(k *core.Case, in *c20Input, r c20Result) {
	c := k.Ctx
	mode := "direct"
	if in.Mode == 's' {
		mode = "stack"
	}
	if r.Class == "skipped" {
		c.Count("skipped_after_breaker", 1)
		return
	}
	if strings.HasPrefix(r.Site, "HARNESS:") {
		fmt.Fprintf(os.Stderr, "HARNESS-PANIC %s: panic in harness code inside the C20 child: %s %s\n", k.ID, r.Site, r.Msg)
		os.Exit(2)
	}
	c.Eval(1)
	c.Count("mode:"+mode, 1)
	c.Count(fmt.Sprintf("inputs:%s/v%d", in.APIName, in.Ver), 1)
	if in.Mode == 's' && r.Class == "notdelivered" {
		c.Count("stack_not_delivered:"+in.APIName, 1)
		c.Logf("NOTDELIVERED %s %s v%d %s=%s: %s", k.ID, in.APIName, in.Ver, in.Role, in.VClass, r.Msg)
		return
	}
	wit := map[string]any{"api": in.APIName, "api_key": in.API, "version": in.Ver, "mode": mode, "role": in.Role, "path": in.Path, "kind": in.Kind,
		"value_class": in.VClass, "variant": in.Variant, "frame_len": len(in.Frame), "frame_hex": c20Hex(in.Frame),
		"outcome": r.Class, "allocated": r.Alloc, "bound": c20Bound(len(in.Frame)), "site": r.Site, "message": r.Msg}
	if in.Base && in.Mode == 'd' {
		if r.Class == "decoded" {
			c.Count("baseline_decoded", 1)
		} else {
			c.Count("baseline_not_decoded", 1)
			c.Count(fmt.Sprintf("baseline_not_decoded:%s/v%d:%s", in.APIName, in.Ver, mode), 1)
			c.Logf("BASELINE %s %s v%d %s: %s %s %s", k.ID, in.APIName, in.Ver, mode, r.Class, r.Msg, c20Hex(in.Frame))
		}
	} else if !in.Base {
		c.Distinct(fmt.Sprintf("%s/%d/%s/%s/%s", in.APIName, in.Ver, in.Role, in.VClass, r.Class))
	}
	if in.Info {
		// checksum-covered field with a recomputed checksum: outside the claim
		c.Count("info:crc-fixed:inputs", 1)
		c.Count("info:crc-fixed:outcome:"+r.Class, 1)
		if r.Class != "death" && r.Class != "timeout" {
			c.Max("max:alloc-crc-fixed:"+in.Role, r.Alloc)
		}
		switch r.Class {
		case "panic", "over", "over-running":
			c.Count(fmt.Sprintf("info:crc-fixed:%s:%s:%s", r.Class, in.Role, r.Site), 1)
			c.Logf("INFO crc-fixed %s %s %s v%d %s=%s: %s alloc=%d %s frame=%s", r.Class, r.Site, in.APIName, in.Ver, in.Role, in.VClass, r.Msg, r.Alloc, in.Path, c20Hex(in.Frame))
		case "death":
			c.Count(fmt.Sprintf("info:crc-fixed:death:%s:%s", in.Role, core.PanicSite(r.Stderr)), 1)
			c.Logf("INFO crc-fixed death %s v%d %s=%s: %s frame=%s", in.APIName, in.Ver, in.Role, in.VClass, c20FirstLine(r.Stderr), c20Hex(in.Frame))
		}
		return
	}
	c.Count("outcome:"+r.Class, 1)
	if strings.HasPrefix(r.Msg, "FIRSTRUN ") {
		// the first decode exceeded the bound on the approximate statistics, the
		// immediate second one (exact statistics, warm pools) did not
		var first int64
		fmt.Sscanf(r.Msg, "FIRSTRUN %d", &first)
		c.Count("first_run_excess_not_confirmed", 1)
		c.Max("max:first_run_excess_not_confirmed", first)
	}
	if i := strings.Index(r.Msg, "|| ALLOC "); i >= 0 {
		c.Logf("STACKALLOC %s %s v%d %s=%s alloc=%d %s", k.ID, in.APIName, in.Ver, in.Role, in.VClass, r.Alloc, r.Msg[i:])
		c.Count("stack_alloc_over_2MiB", 1)
	}
	if r.Class != "death" && r.Class != "timeout" {
		c.Max("max:alloc:"+in.Role, r.Alloc)
		if in.Mode == 's' {
			c.Max("max:alloc-stack", r.Alloc)
		}
	}
	via := ""
	if in.Mode == 's' {
		via = " (frame sent by the fake broker through kafka.Client -> kafka.Transport)"
	}
	what := fmt.Sprintf("%s v%d response, %d bytes, %s %s = %s%s", in.APIName, in.Ver, len(in.Frame), in.Role, in.Path, in.VClass, map[bool]string{true: " [" + in.Variant + "]", false: ""}[in.Variant != ""])
	switch r.Class {
	case "error", "decoded":
	case "panic":
		if in.Mode == 's' && !strings.HasPrefix(r.Site, "/protocol") {
			// the frame was decoded; kafka.Client panicked while converting the message
			k.Viol("c20:client-panic:"+r.Site, fmt.Sprintf("kafka.Client panics on a decoded response: %s; %s%s", r.Msg, what, via), wit)
			break
		}
		k.Viol(fmt.Sprintf("c20:panic:%s:%s", r.Site, in.Role), fmt.Sprintf("decoding panics: %s; %s%s", r.Msg, what, via), wit)
	case "death":
		st := r.Stderr
		site := core.PanicSite(st)
		if len(st) > 6000 {
			st = st[:6000]
		}
		wit["stderr"] = st
		if blk := c20CrashGoroutine(st); site == "?" || !c20InLibrary(blk) {
			// the crash report does not put kafka-go innermost: not attributable to the decode
			if strings.Contains(blk, "verifharness/") && !strings.Contains(c20FirstLine(st), "out of memory") {
				fmt.Fprintf(os.Stderr, "HARNESS-PANIC %s: the C20 child died in harness code: %s\n%s\n", k.ID, c20FirstLine(st), st)
				os.Exit(2)
			}
			c.Inconclusive(fmt.Sprintf("%s: the helper process died while decoding, but not inside kafka-go (%s): %s frame=%s", k.ID, c20FirstLine(st), what, c20Hex(in.Frame)))
			break
		}
		k.Viol(fmt.Sprintf("c20:process-death:%s:%s", site, in.Role), fmt.Sprintf("decoding kills the process: %s; %s%s", c20FirstLine(st), what, via), wit)
	case "over":
		if in.Variant == "frame-size-2^30" {
			k.Viol(fmt.Sprintf("c20:alloc-announced-not-received:%s:%s", r.Site, in.Role), fmt.Sprintf("decoding allocates %d bytes when %d bytes were received (bound %d): the length is only bounded by the frame size announced on the wire (2^30), largest allocation at %s; %s%s", r.Alloc, len(in.Frame), wit["bound"], r.Site, what, via), wit)
			break
		}
		k.Viol(fmt.Sprintf("c20:alloc:%s:%s:%s", r.Site, in.Role, in.Kind), fmt.Sprintf("decoding allocates %d bytes for a %d-byte frame (bound %d), largest allocation at %s; %s%s", r.Alloc, len(in.Frame), wit["bound"], r.Site, what, via), wit)
	case "over-running":
		if in.Variant == "frame-size-2^30" {
			k.Viol(fmt.Sprintf("c20:alloc-announced-not-received:%s:%s", r.Site, in.Role), fmt.Sprintf("decoding had allocated %d bytes when %d bytes were received (bound %d) and was still running in %s when it was stopped: the length is only bounded by the frame size announced on the wire (2^30); %s%s", r.Alloc, len(in.Frame), wit["bound"], r.Site, what, via), wit)
			break
		}
		k.Viol(fmt.Sprintf("c20:alloc-unfinished:%s:%s:%s", r.Site, in.Role, in.Kind), fmt.Sprintf("decoding had allocated %d bytes for a %d-byte frame (bound %d) and was still running in %s when it was stopped; %s%s", r.Alloc, len(in.Frame), wit["bound"], r.Site, what, via), wit)
	case "neither":
		k.Viol("c20:neither:"+in.APIName, fmt.Sprintf("decoding returned neither an error nor a message: %s; %s%s", r.Msg, what, via), wit)
	case "timeout":
		c.Inconclusive(fmt.Sprintf("%s: decode did not return within %s (no allocation above the bound had been observed by then): %s frame=%s", k.ID, c20DecodeLimit, what, c20Hex(in.Frame)))
	default:
		fmt.Fprintf(os.Stderr, "HARNESS-PANIC %s: unknown child outcome %q\n", k.ID, r.Class)
		os.Exit(2)
	}
}

// c20Regress: (seed, index in the schema list) of base frames kept for regression.
var c20Regress = []struct {
	seed uint64
	idx  int
	what string
}{
	{1, 11395, "Fetch v10: first record-set length + 1 shifts the decode by one byte, the bytes then taken for a snappy batch announce 2^28 decoded bytes (fixed by bee4a94)"},
}

func runC20(c *core.Ctx) {
	c.SetExhaustive(false)
	mgr := newC20Mgr(c)
	defer mgr.close()

	evaluate := func(k *core.Case, ins []*c20Input) {
		for _, mode := range []byte{'d', 's'} {
			var sel []*c20Input
			for _, in := range ins {
				if in.Mode == mode {
					sel = append(sel, in)
				}
			}
			res := mgr.run(sel)
			for i, in := range sel {
				c20Judge(k, in, res[i])
			}
		}
	}

	// ---- schema list: field-map driven mutation of reference-encoded frames
	sp := c20Pairs(true)
	reps := c.N(3, 420)
	c.Cases("schema", len(sp)*reps, func(k *core.Case) {
		p := sp[k.Idx%len(sp)]
		frame, fields := c20SchemaFrame(k.R, p.API, int(p.Ver))
		ins := []*c20Input{{Mode: 'd', API: p.T.Key, Ver: p.Ver, APIName: p.T.Name, Frame: frame, Role: "none", Kind: "base", VClass: "base", Base: true}}
		ins = append(ins, c20Mutants(p, frame, fields)...)
		roles := map[string]int{}
		for _, f := range fields {
			roles[f.Role]++
		}
		k.Describe(map[string]any{"api": p.T.Name, "version": p.Ver, "frame_len": len(frame), "fields": roles, "mutants": len(ins) - 1})
		if k.Idx < 4 {
			c.Sample(k.Desc())
		}
		// 5% of the mutants also go through the full client stack
		if c20StackCalls[p.T.Key] != nil {
			n := len(ins)
			for i := 0; i < n; i++ {
				if in := ins[i]; (in.Base && k.R.Chance(1, 4)) || (!in.Base && k.R.Chance(1, 20)) {
					cp := *in
					cp.Mode = 's'
					ins = append(ins, &cp)
				}
			}
		}
		for _, f := range fields {
			c.Count("fields:"+f.Role, 1)
		}
		evaluate(k, ins)
	})

	// ---- regress list: base frames whose mutants exposed a defect in an earlier (thorough) run, regenerated
	// from their recorded (seed, case index) so that the quick tier re-checks them on every run
	c.Cases("regress", len(c20Regress), func(k *core.Case) {
		rg := c20Regress[k.Idx]
		p := sp[rg.idx%len(sp)]
		r := core.NewRand(core.Mix(core.HashString("C20"), core.HashString("schema"), rg.seed, uint64(rg.idx)))
		frame, fields := c20SchemaFrame(r, p.API, int(p.Ver))
		ins := []*c20Input{{Mode: 'd', API: p.T.Key, Ver: p.Ver, APIName: p.T.Name, Frame: frame, Role: "none", Kind: "base", VClass: "base", Base: true}}
		ins = append(ins, c20Mutants(p, frame, fields)...)
		k.Describe(map[string]any{"regress": rg.what, "api": p.T.Name, "version": p.Ver, "frame_len": len(frame), "mutants": len(ins) - 1})
		evaluate(k, ins)
	})

	// ---- blind list: library-encoded frames of every registered type
	bp := c20Pairs(false)
	breps := c.N(1, 15)
	perCase := c.N(40, 400)
	c.Cases("blind", len(bp)*breps, func(k *core.Case) {
		p := bp[k.Idx%len(bp)]
		frame, err := c20LibFrame(k.R, p.T.New, p.Ver)
		if err != nil {
			c.Count("blind_encode_failed:"+p.T.Name, 1)
			k.Describe(map[string]any{"api": p.T.Name, "version": p.Ver, "encode_error": err.Error()})
			return
		}
		ins := []*c20Input{{Mode: 'd', API: p.T.Key, Ver: p.Ver, APIName: p.T.Name, Frame: frame, Role: "none", Kind: "base", VClass: "base", Base: true}}
		total := c20BlindCount(frame)
		var idxs []int
		if total <= perCase {
			for i := 0; i < total; i++ {
				idxs = append(idxs, i)
			}
		} else {
			seen := map[int]bool{}
			for len(idxs) < perCase {
				i := k.R.Intn(total)
				if !seen[i] {
					seen[i] = true
					idxs = append(idxs, i)
				}
			}
			sort.Ints(idxs)
		}
		for _, i := range idxs {
			if in := c20BlindMutant(p, frame, i); in != nil {
				ins = append(ins, in)
			}
		}
		k.Describe(map[string]any{"api": p.T.Name, "version": p.Ver, "frame_len": len(frame), "blind_mutants": len(ins) - 1, "of": total})
		evaluate(k, ins)
	})
	c.Count("child_starts", int64(mgr.starts))
}
