package props

import (
	"fmt"
	"sort"
	"strings"
	"sync/atomic"
	"time"

	kafka "github.com/segmentio/kafka-go"

	"verifharness/core"
)

// C07 — Writer preserves per-partition submission order, also across retries.

func init() {
	core.Register(&core.Prop{
		ID:    "C07",
		Level: "exploration",
		Rule: "one case = one Writer scenario biased towards many small batches per partition (Async favoured, BatchSize 1-3, batch timers racing size flushes, failures of batch k while k+1 is queued); oracle: per partition log and per submitting goroutine, sequence numbers are increasing inside each request and every applied copy of an earlier batch precedes every applied copy of a later one; " +
			"signature = (config class, fault fates, retried-batch pattern, timer-hook hits bucket); non-trivial = some partition received at least two batches from one goroutine",
		Assumptions: []string{
			"the fake broker applies produce requests in arrival order and appends atomically",
			"scenarios in which the client reported a deadline error are not judged (a delayed first attempt may legitimately be applied after its retry)",
			"hook writer.awaitBatch.timer only delays the timer goroutine before it takes the partition mutex; hook writer.batchQueue.Put delays the hand-over of a batch to the partition queue (done under the partition mutex)",
		},
		Shards:      16,
		CaseTimeout: 60 * time.Second,
		Run:         runC07,
	})
}

var c07TimerHits, c07PutHits int64

func runC07(c *core.Ctx) {
	// widen the window between timer expiry and the partition mutex
	var tick, ptick uint64
	kafka.VerifSetPoints(map[string]func(){
		"writer.awaitBatch.timer": func() {
			atomic.AddInt64(&c07TimerHits, 1)
			if n := atomic.AddUint64(&tick, 1); n%3 != 0 {
				time.Sleep(time.Duration(100+(n%7)*150) * time.Microsecond)
			}
		},
		// the hand-over of a closed batch to the partition queue: the library does it under the partition
		// mutex, so that a delay here only slows the writer down; if the hand-over ever leaves the mutex the
		// delay lets a later batch overtake
		"writer.batchQueue.Put": func() {
			atomic.AddInt64(&c07PutHits, 1)
			if n := atomic.AddUint64(&ptick, 1); n%4 == 0 {
				time.Sleep(time.Duration(200+(n%5)*200) * time.Microsecond)
			}
		},
	})
	c.CasesPar("order", c.N(4000, 160000), 4, func(k *core.Case) {
		r := k.R
		cfg := genWriterCfg(r, "")
		cfg.Async = r.Chance(2, 3)
		cfg.BatchSize = core.Pick(r, 1, 2, 2, 3)
		cfg.BatchTimeout = time.Duration(core.Pick(r, 300, 500, 1000, 2000)) * time.Microsecond
		cfg.Topics = []int{r.Range(1, 3)}
		if r.Chance(1, 3) {
			cfg.Topics = append(cfg.Topics, r.Range(1, 2))
		}
		cfg.WriterTopic = len(cfg.Topics) == 1 && r.Bool()
		cfg.Goroutines = r.Range(1, 4)
		cfg.Calls = r.Range(2, 8)
		cfg.MsgsMax = core.Pick(r, 1, 2, 5, 9)
		cfg.MaxAttempts = r.Range(2, 4)
		cfg.Faults = nil
		genWriterFaults(r, &cfg, false)
		// more faults early, so that later batches are queued behind a failing one
		for i := r.Intn(3); i > 0; i-- {
			cfg.Faults = append(cfg.Faults, wFault{Broker: int32(r.Range(1, cfg.Brokers)), N: r.Range(1, 4), Act: core.Pick(r, "apply-drop", "error", "error-apply", "drop-before"), Code: core.Pick(r, int16(7), int16(6), int16(19), int16(20))})
		}
		k.Describe(cfg.desc())
		run := wSetup(k, cfg)
		before := atomic.LoadInt64(&c07TimerHits)
		wRunWorkload(k, run, wWorkloadOpts{})
		hits := atomic.LoadInt64(&c07TimerHits) - before
		c.Count("timer_hook_hits", hits)
		c.Max("put_hook_hits_total", atomic.LoadInt64(&c07PutHits))
		checkC07(k, run, hits)
	})
}

func checkC07(k *core.Case, run *wRun, timerHits int64) {
	c := k.Ctx
	if !run.Quiesced {
		c.Inconclusive("broker handlers still running after Close: " + k.ID)
		return
	}
	c.Eval(1)
	if run.TimeoutSeen {
		c.Count("scenarios_not_judged_client_timeout", 1)
		return
	}
	atts := wAttempts(run)
	// per partition, applied attempts in log order (BaseOff)
	byPart := map[string][]*wAttempt{}
	for _, a := range atts {
		// (i) order inside each request, applied or not
		last := map[int]int{}
		for _, id := range a.IDs {
			g, seq := parseGSeq(id)
			if p, ok := last[g]; ok && seq <= p {
				k.Viol("c07:order-in-request", fmt.Sprintf("inside one produce request to %s/%d goroutine %d's messages are not in submission order (%d after %d)", a.Topic, a.Partition, g, seq, p), map[string]any{"ids": a.IDs})
				break
			}
			last[g] = seq
		}
		if a.Applied {
			key := fmt.Sprintf("%s/%d", a.Topic, a.Partition)
			byPart[key] = append(byPart[key], a)
		}
	}
	multi := false
	retried := 0
	queuedBehindFailure := 0
	for part, as := range byPart {
		sort.Slice(as, func(i, j int) bool { return as[i].Ev.BaseOff < as[j].Ev.BaseOff })
		// per goroutine: (batch key, min seq, max seq) in log order
		type span struct {
			key      string
			min, max int
			a        *wAttempt
		}
		per := map[int][]span{}
		for _, a := range as {
			mm := map[int]*span{}
			for _, id := range a.IDs {
				g, seq := parseGSeq(id)
				s := mm[g]
				if s == nil {
					s = &span{key: a.Key, min: seq, max: seq, a: a}
					mm[g] = s
				}
				if seq < s.min {
					s.min = seq
				}
				if seq > s.max {
					s.max = seq
				}
			}
			for g, s := range mm {
				per[g] = append(per[g], *s)
			}
		}
		for g, spans := range per {
			keys := map[string]bool{}
			for i, s := range spans {
				keys[s.key] = true
				if i > 0 && spans[i-1].key == s.key {
					retried++
				}
				for j := 0; j < i; j++ {
					if spans[j].key != s.key && spans[j].min > s.max {
						k.Viol("c07:batch-order", fmt.Sprintf("partition %s: a copy of goroutine %d's batch with sequence numbers up to %d was appended after a copy of its later batch starting at %d", part, g, s.max, spans[j].min),
							map[string]any{"log_order": describeAttempts(as)})
						break
					}
				}
			}
			if len(keys) >= 2 {
				multi = true
			}
		}
	}
	// batches queued behind a failing batch: a non-acked attempt followed (in arrival order) by attempts of another batch of the same partition
	lastFail := map[string]bool{}
	for _, a := range atts {
		pk := fmt.Sprintf("%s/%d", a.Topic, a.Partition)
		if !a.Acked {
			lastFail[pk] = true
		} else if lastFail[pk] {
			queuedBehindFailure++
			lastFail[pk] = false
		}
	}
	c.Count("applied_retried_copies", int64(retried))
	c.Count("batches_sent_after_a_failed_attempt_same_partition", int64(queuedBehindFailure))
	if multi {
		fs := []string{}
		for _, a := range atts {
			if a.Ev.Fate != "applied" || a.Ev.Code != 0 {
				fs = append(fs, fmt.Sprintf("%s/%d", a.Ev.Fate, a.Ev.Code))
			}
		}
		hb := 0
		if timerHits > 0 {
			hb = 1
		}
		if timerHits > 5 {
			hb = 2
		}
		c.Distinct(fmt.Sprintf("b%d t%v bs%d async%v g%d | %s | retried%d timer%d", run.Cfg.Brokers, run.Cfg.Topics, run.Cfg.BatchSize, run.Cfg.Async, run.Cfg.Goroutines, strings.Join(fs, ","), retried, hb))
	}
	if k.Idx < 32 && multi && retried > 0 {
		c.Sample(map[string]any{"case": k.ID, "config": run.Cfg.desc(), "attempts_in_arrival_order": describeAttempts(atts)})
	}
}
