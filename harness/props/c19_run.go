package props

import (
	"errors"
	"fmt"
	"time"

	kafka "github.com/segmentio/kafka-go"

	"verifharness/core"
)

func runC19(c *core.Ctx) {
	n := c.N(6000, 1200000)
	c.SetExhaustive(false)
	c.Cases("state", n, func(k *core.Case) {
		r := k.R
		s := c19Gen(r)
		d := s.describe()
		k.Describe(d)
		e := c19Install(k, s)
		defer e.cl.Close()

		// ---- kafka.Conn
		e.connQueries(r.Fork())

		// ---- kafka.Client, nothing injected
		boot := s.Brokers[r.Intn(len(s.Brokers))].ID
		cli := e.newClient(boot)
		rc := r.Fork()
		natural := map[string]int16{}
		for _, p := range s.allParts() {
			if !s.known(p.Leader) {
				natural[c19Key(p.Topic, p.ID)] = 0 // no leader: the lookup cannot be served
			}
		}
		inj := ""
		if len(natural) > 0 {
			inj = "leaderless"
		}
		cli.listOffsets(rc, c19GenListOffsets(rc, s, 2), natural, inj)
		cli.metadata(rc)
		group := s.Groups[rc.Intn(len(s.Groups))]
		cli.offsetFetch(group, c19GenOffsetFetch(rc, s), false, nil)
		coordOF := 0
		for _, b := range s.Brokers {
			if b.ID == e.coordinator(group) {
				coordOF = b.OF
			}
		}
		if coordOF >= 2 && rc.Chance(1, 2) {
			cli.offsetFetch(group, nil, true, nil)
		}
		cli.consumerOffsets(rc, group, nil)
		cli.offsetCommit(rc, group, nil)
		cli.offsetFetch(group, c19GenOffsetFetch(rc, s), false, nil)
		cli.consumerOffsets(rc, group, nil)
		cli.close()

		// ---- one injected failure concerning one partition
		e.inject(r.Fork(), natural)
		c.Eval(1)
		if k.Idx%397 == 0 {
			c.Sample(d)
		}
	})
}

func (e *c19Env) inject(r *core.Rand, natural map[string]int16) {
	s := e.s
	all := s.allParts()
	x := all[r.Intn(len(all))]
	code := core.Pick(r, int16(3), int16(6), int16(9), int16(5), int16(7), int16(43))
	group := s.Groups[r.Intn(len(s.Groups))]
	boot := s.Brokers[r.Intn(len(s.Brokers))].ID
	failing := map[string]int16{}
	for k, v := range natural {
		failing[k] = v
	}
	kind := core.Pick(r, "lo-error", "lo-error", "lo-leader-down", "lo-leader-down", "lo-unknown-partition", "of-error", "oc-error", "co-error", "conn-lo-error")
	switch kind {
	case "lo-error":
		if !s.known(x.Leader) {
			return
		}
		f := &c19Fault{Kind: kind, Topic: x.Topic, Partition: x.ID, Code: code, OnlyEarliest: r.Chance(1, 3)}
		e.setFault(f)
		cli := e.newClient(boot)
		defer cli.close()
		reqs := c19GenListOffsets(r, s, 2)
		found := false
		for _, q := range reqs {
			if q.Part == x {
				found = true
				if f.OnlyEarliest {
					// several lookups of the partition in one request, only one of them fails: the
					// partition must still carry the error
					q.First, q.Last = true, true
				}
			}
		}
		if !found {
			reqs = append(reqs, &c19LOReq{Part: x, Topic: x.Topic, ID: x.ID, First: f.OnlyEarliest || r.Bool(), Last: true, Times: c19Times(r, x, r.Intn(2))})
		}
		if f.OnlyEarliest {
			e.k.Count("injected_single_lookup_errors", 1)
		}
		failing[c19Key(x.Topic, x.ID)] = code
		e.k.Count("injected_partition_errors", 1)
		cli.listOffsets(r, reqs, failing, kind)
		e.setFault(nil)
	case "lo-leader-down":
		// the leader of x refuses connections; the transport learns the layout from another broker
		if !s.known(x.Leader) || len(s.Brokers) < 2 {
			return
		}
		for boot == x.Leader {
			boot = s.Brokers[r.Intn(len(s.Brokers))].ID
		}
		e.net.Unlisten(fmt.Sprintf("b%d:9092", x.Leader))
		cli := e.newClient(boot)
		defer cli.close()
		reqs := c19GenListOffsets(r, s, 3)
		found := false
		for _, q := range reqs {
			if q.Part == x {
				found = true
			}
		}
		if !found {
			reqs = append(reqs, &c19LOReq{Part: x, Topic: x.Topic, ID: x.ID, First: true, Last: r.Bool()})
		}
		for _, q := range reqs {
			if q.Part.Leader == x.Leader {
				failing[c19Key(q.Topic, q.ID)] = 0
			}
		}
		e.k.Count("injected_unreachable_leaders", 1)
		cli.listOffsets(r, reqs, failing, kind)
	case "lo-unknown-partition":
		cli := e.newClient(boot)
		defer cli.close()
		reqs := c19GenListOffsets(r, s, 2)
		t := x.Topic
		id := int32(len(s.Topics[t]) + r.Intn(3))
		if u := c19UnknownTopics(r, s); r.Bool() && len(u) > 0 {
			t, id = u[r.Intn(len(u))], int32(r.Intn(3))
		}
		reqs = append(reqs, &c19LOReq{Topic: t, ID: id, First: r.Bool(), Last: true})
		failing[c19Key(t, id)] = 3
		e.k.Count("injected_partition_errors", 1)
		cli.listOffsets(r, reqs, failing, kind)
	case "of-error", "co-error":
		f := &c19Fault{Kind: "of-error", Topic: x.Topic, Partition: x.ID, Code: code}
		e.setFault(f)
		cli := e.newClient(boot)
		defer cli.close()
		e.k.Count("injected_partition_errors", 1)
		if kind == "of-error" {
			topics := c19GenOffsetFetch(r, s)
			has := false
			for _, id := range topics[x.Topic] {
				if id == int(x.ID) {
					has = true
				}
			}
			if !has {
				topics[x.Topic] = append(topics[x.Topic], int(x.ID))
			}
			cli.offsetFetch(group, topics, false, f)
		} else {
			cli.consumerOffsets(r, group, f)
		}
		e.setFault(nil)
	case "oc-error":
		f := &c19Fault{Kind: kind, Topic: x.Topic, Partition: x.ID, Code: core.Pick(r, int16(12), int16(28), int16(9))}
		e.setFault(f)
		cli := e.newClient(boot)
		defer cli.close()
		e.k.Count("injected_partition_errors", 1)
		cli.offsetCommit(r, group, f)
		e.setFault(nil)
	case "conn-lo-error":
		if !s.known(x.Leader) {
			return
		}
		e.connFault(r, x, code)
	}
}

// connFault: a ListOffsets error code for the Conn's partition must come back as that error from the
// offset readers and from a checked Seek (which must leave the position alone), and the next query is exact again.
func (e *c19Env) connFault(r *core.Rand, p *c19Part, code int16) {
	dialer := &kafka.Dialer{DialFunc: e.net.Dialer("conn"), ClientID: "c19-conn", Timeout: 10 * time.Second}
	ctx, cancel := c19Ctx()
	defer cancel()
	cn, err := dialer.DialLeader(ctx, "tcp", fmt.Sprintf("b%d:9092", p.Leader), p.Topic, int(p.ID))
	if err != nil {
		e.unexpected("c19:conn:dialleader", fmt.Sprintf("DialLeader(%s/%d)", p.Topic, p.ID), err)
		return
	}
	defer cn.Close()
	cn.SetDeadline(time.Now().Add(10 * time.Second))
	where := fmt.Sprintf("Conn to leader of %s/%d", p.Topic, p.ID)
	if _, err := cn.Seek(p.End, kafka.SeekAbsolute); err != nil {
		e.unexpected("c19:seek:absolute", where+" Seek(last, absolute)", err)
		return
	}
	e.setFault(&c19Fault{Kind: "conn-lo-error", Topic: p.Topic, Partition: p.ID, Code: code})
	e.k.Count("injected_partition_errors", 1)
	op := r.Intn(4)
	var name string
	var v int64
	switch op {
	case 0:
		name = "ReadFirstOffset"
		v, err = cn.ReadFirstOffset()
	case 1:
		name = "ReadLastOffset"
		v, err = cn.ReadLastOffset()
	case 2:
		name = "ReadOffset"
		v, err = cn.ReadOffset(time.UnixMilli(tsBase))
	case 3:
		name = "Seek"
		v, err = cn.Seek(0, kafka.SeekStart)
	}
	e.sig("conn", name, 1, []*c19Part{p}, "conn-lo-error")
	if !errors.Is(err, kafka.Error(code)) {
		e.k.Viol(map[bool]string{true: "c19:seek", false: "c19:conn:readoffset"}[op == 3]+":partition-error-lost", fmt.Sprintf("%s: the broker answered ListOffsets with error code %d; %s returned (%d, %v)", where, code, name, v, err), nil)
	}
	if po, pw := cn.Offset(); po != p.End || pw != kafka.SeekAbsolute {
		e.k.Viol("c19:seek:position-changed-by-failed-query", fmt.Sprintf("%s: position was (%d, absolute); after %s failed with %v it is (%d, whence %d)", where, p.End, name, err, po, pw), nil)
	}
	e.setFault(nil)
	if f, l, err := cn.ReadOffsets(); err != nil {
		e.unexpected("c19:conn:readoffsets", where+" ReadOffsets after an error answer", err)
	} else if f != p.Start || l != p.End {
		e.k.Viol("c19:conn:readoffsets:wrong-offset", fmt.Sprintf("%s: ReadOffsets after an error answer = (%d, %d), the log is [%d, %d)", where, f, l, p.Start, p.End), nil)
	}
}
