package fakecluster

import (
	"sync"

	"verifharness/refcodec"
)

type Group struct {
	ID   string
	cond *sync.Cond
}

// CoordinatorFor decides which broker coordinates a group (scenario hook;
// default: the controller).
func (c *Cluster) coordinatorLocked(key string) *Broker {
	if c.CoordinatorOf != nil {
		if b := c.Brokers[c.CoordinatorOf(key)]; b != nil {
			return b
		}
	}
	return c.Brokers[c.Controller]
}

func (c *Cluster) groupAPI(rc *ReqCtx) map[string]any {
	switch rc.Ev.API {
	case KFindCoordinator:
		c.mu.Lock()
		defer c.mu.Unlock()
		rc.Ev.Fate = FateServed
		b := c.coordinatorLocked(refcodec.Str(rc.Body["Key"]))
		if b == nil {
			return map[string]any{"ErrorCode": int64(15), "NodeId": int64(-1), "Host": "", "Port": int64(-1)}
		}
		return map[string]any{"ErrorCode": int64(0), "NodeId": int64(b.ID), "Host": b.Host, "Port": int64(b.Port)}
	}
	return map[string]any{"ErrorCode": int64(15)}
}
