#!/bin/bash
# Builds the driver and warms the build cache for verifrun (plain and -race),
# offline, from files on disk only.
set -e
export GOFLAGS=-mod=mod GOPROXY=off GOSUMDB=off GOTOOLCHAIN=local
cd /verif/harness
mkdir -p /verif/bin /verif/evidence /verif/replays
go build -o /verif/bin/verif ./cmd/verif
/verif/bin/verif build
echo setup ok
