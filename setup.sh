#!/bin/bash
# Builds the driver and warms the build cache for verifrun (plain and -race),
# offline, from files on disk only.
set -e
export GOFLAGS=-mod=mod GOPROXY=off GOSUMDB=off GOTOOLCHAIN=local
DIR="$(cd "$(dirname "$0")" && pwd)"; export VERIF_DIR="$DIR"; cd "$DIR/harness"
mkdir -p "$DIR/bin" "$DIR/evidence" "$DIR/replays"
go build -o "$DIR"/bin/verif ./cmd/verif
"$DIR"/bin/verif build
# C04 compares the protocol package built with -tags unsafe (checkptr on): warm that build too
go build -tags "verif unsafe" -gcflags=all=-d=checkptr -o /dev/null ./cmd/verifrun
echo setup ok
