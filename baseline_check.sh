#!/bin/bash
# Runs the repository's baseline test command (hooks OFF: no -tags verif) in a
# scratch worktree of /repo's current HEAD plus working-tree changes, and
# checks that every test listed as stable_pass in /root/.vp/BASELINE.json
# still passes. Nothing is written into /repo.
set -u
WT=/tmp/baseline_wt_$$
git -C /repo worktree add -f --detach $WT HEAD >/dev/null 2>&1 || exit 2
trap 'git -C /repo worktree remove --force $WT >/dev/null 2>&1' EXIT
git -C /repo diff | git -C $WT apply 2>/dev/null
export GOFLAGS= GOPROXY=off GOSUMDB=off GOTOOLCHAIN=local
OUT=/tmp/baseline_out_$$.json
: > $OUT
for m in . ./sasl/aws_msk_iam ./sasl/aws_msk_iam_v2; do
  (cd $WT/$m && go test -mod=mod -json -vet=off -count=1 -timeout 25m ./... >> $OUT 2>/dev/null)
done
python3 - $OUT <<'PY'
import json,sys
passed=set()
for l in open(sys.argv[1]):
    try: e=json.loads(l)
    except: continue
    if e.get('Action')=='pass' and e.get('Test'):
        passed.add(e['Package']+'::'+e['Test'])
want=json.load(open('/root/.vp/BASELINE.json'))['stable_pass']
missing=[t for t in want if t not in passed]
print("baseline: %d stable tests, %d passed now, %d missing"%(len(want),len(want)-len(missing),len(missing)))
for t in missing[:20]: print("  MISSING",t)
sys.exit(1 if missing else 0)
PY
rc=$?
rm -f $OUT
exit $rc
